//go:build verif

package protein

// C17 — protein distances: the matrix skeleton of MLDist. Only what can be reached without the
// likelihood optimiser: InitModel of the protein model needs gonum's eigen-solver and the
// optimiser (Brent, <= 10000 floating-point iterations over exp/pow of 20 eigenvalues) cannot be
// encoded — the optimality statement is not applicable for this technique.
//
// Reached here: selectedSites, the JC69-like start values (JC69Dist), and MLDist on alignments
// where no pair is handed to the optimiser: pairs without an unambiguous difference (distance 0)
// and pairs whose differing sites carry no usable weight (the region of finding
// C17-mldist-minus-one).
//
// Oracles: Jukes-Cantor distance for c = 20 states (Felsenstein 2004, ch. 11; FastME's start
// values): d = -(19/20) ln(1 - (20/19) p), p = weighted proportion of differing sites among the
// sites where both residues are unambiguous, capped at 20; ambiguous = gap '-', '.', '*', 'X'
// (the property: "20 amino acids plus gaps, X and '*'").

import (
	"math"

	"github.com/evolbioinfo/goalign/align"
	pm "github.com/evolbioinfo/goalign/models/protein"
)

func vfC17Close(a, b float64) bool {
	if verifSymbolic() {
		return a == b
	}
	return math.Abs(a-b) <= 1e-9*math.Max(1, math.Abs(a)) || (math.IsInf(a, 0) && a == b)
}

var vfC17Names = []string{"s0", "s1", "s2"}

// residues of the harness alignments: three amino acids, gap, X, '*', and B (Asx: not one of the
// 20 states, not in the library's list of ambiguous characters).
var vfC17Letters = []uint8{'A', 'R', 'N', '-', 'X', '*', 'B'}

func vfC17IsLetter(c uint8, letters []uint8) bool {
	ok := false
	for _, l := range letters {
		ok = ok || c == l
	}
	return ok
}

func vfC17Align(n, L int, letters []uint8) (align.Alignment, [][]uint8) {
	al := align.NewAlign(align.AMINOACIDS)
	rows := make([][]uint8, n)
	for r := 0; r < n; r++ {
		s := make([]uint8, L)
		rows[r] = make([]uint8, L)
		for j := range s {
			s[j] = nondetByte()
			assume(vfC17IsLetter(s[j], letters))
			rows[r][j] = s[j]
		}
		if err := al.AddSequenceChar(vfC17Names[r], s, ""); err != nil {
			panic("harness: cannot build alignment: " + err.Error())
		}
	}
	return al, rows
}

// vfC17Weights: nil (all 1) or symbolic dyadic weights k/2, k = 0..4.
func vfC17Weights(L int) (passed []float64, eff []float64) {
	eff = make([]float64, L)
	if nondetBool() {
		for i := range eff {
			eff[i] = 1
		}
		return nil, eff
	}
	passed = make([]float64, L)
	for i := range passed {
		passed[i] = nondetDyadic(2, 0, 4)
		eff[i] = passed[i]
	}
	return passed, eff
}

func vfC17Ambiguous(c uint8) bool { return c == '-' || c == '.' || c == '*' || c == 'X' }

func vfC17Standard(c uint8) bool { return c == 'A' || c == 'R' || c == 'N' }

func vfC17Model(removegaps bool) *ProtDistModel {
	m, err := NewProtDistModel(pm.MODEL_LG, true, false, 1, removegaps)
	verifAssert(err == nil && m != nil, "NewProtDistModel: no error")
	return m
}

// vfC17CheckSelected: the part of the site selection the property names: without gap-site
// removal every site is used; with it, a site with a gap in some row is not used and a site with
// only amino acids is.
func vfC17CheckSelected(sel []bool, rows [][]uint8, L int, removegaps bool) {
	verifAssert(len(sel) == L, "one flag per site")
	for l := 0; l < L; l++ {
		anygap := false
		allstd := true
		for r := range rows {
			anygap = anygap || rows[r][l] == '-'
			allstd = allstd && vfC17Standard(rows[r][l])
		}
		verifAssert(removegaps || sel[l], "no gap-site removal: every site is used")
		verifAssert(!(removegaps && anygap) || !sel[l], "gap-site removal: a site with a gap is not used")
		verifAssert(!allstd || sel[l], "a site with amino acids only is used")
	}
}

// vfC17JCRef: the published start value for one pair.
func vfC17JCRef(r1, r2 []uint8, sel []bool, w []float64, ns float64) (p, d float64) {
	tot, diff := 0.0, 0.0
	for l := range r1 {
		if sel[l] && !vfC17Ambiguous(r1[l]) && !vfC17Ambiguous(r2[l]) {
			tot += w[l]
			if r1[l] != r2[l] {
				diff += w[l]
			}
		}
	}
	p = 1.0
	if tot > 0 {
		p = diff / tot
	}
	x := 1 - ns/(ns-1)*p
	if x < 0 {
		return p, PROT_DIST_MAX
	}
	d = -(ns - 1) / ns * math.Log(x)
	if d > PROT_DIST_MAX {
		d = PROT_DIST_MAX
	}
	return p, d
}

func vfC17JC(n, L int) {
	al, rows := vfC17Align(n, L, vfC17Letters)
	removegaps := nondetBool()
	_, w := vfC17Weights(L)
	m := vfC17Model(removegaps)
	_, sel := selectedSites(al, w, removegaps)
	vfC17CheckSelected(sel, rows, L, removegaps)
	p, _, dist := m.JC69Dist(al, w, sel)
	pr, pc := p.Dims()
	dr, dc := dist.Dims()
	verifAssert(pr == n && pc == n && dr == n && dc == n, "n x n matrices")
	ns := float64(m.Ns())
	for i := 0; i < n; i++ {
		verifAssert(dist.At(i, i) == 0 && p.At(i, i) == 0, "zero diagonal")
		for j := i + 1; j < n; j++ {
			pref, dref := vfC17JCRef(rows[i], rows[j], sel, w, ns)
			verifAssert(vfC17Close(p.At(i, j), pref), "p = weighted proportion of differing sites among unambiguous sites (1 without any)")
			verifAssert(vfC17Close(dist.At(i, j), dref), "start value = -(19/20) ln(1 - 20p/19), capped at 20")
			verifAssert(p.At(j, i) == p.At(i, j) && dist.At(j, i) == dist.At(i, j), "symmetric")
			verifAssert(p.At(i, j) >= 0 && p.At(i, j) <= 1, "p in [0,1]")
			verifAssert(dist.At(i, j) >= 0 && dist.At(i, j) <= PROT_DIST_MAX, "start value in [0,20]")
			verifAssert(!(pref == 0) || dist.At(i, j) == 0, "no difference: start value 0")
		}
	}
	verifReach("jc69")
}

// H_C17_jc69_start: JC69Dist (start values of MLDist) and selectedSites against the published Jukes-Cantor formula for 20 states: n x n, symmetric, zero diagonal, in [0,20], 0 without difference.
// bounds: n = 2 rows, L <= 2 sites; residues symbolic in {A,R,N,-,X,*,B}; gap-site removal on/off (symbolic); weights nil or symbolic dyadic k/2, k=0..4
// outside: n = 3 (thorough twin); other residues, lower case; IEEE rounding is outside the claim: floats are exact reals; ln uninterpreted
func H_C17_jc69_start() {
	vfC17JC(2, nondetRange(1, 2))
}

// H_C17_jc69_start_deep: as H_C17_jc69_start on 3 rows.
// bounds: n = 3 rows, L <= 2 sites
// outside: IEEE rounding is outside the claim: floats are exact reals
//verif: tier=thorough
func H_C17_jc69_start_deep() {
	vfC17JC(3, nondetRange(1, 2))
}

// vfC17PairState classifies a pair as MLDist's documented steps do: differing = some site where
// both residues are unambiguous and differ; usable = total weight of the used sites where both
// residues are unambiguous and among the 20 states.
func vfC17PairState(r1, r2 []uint8, sel []bool, w []float64) (differing bool, usable float64) {
	for l := range r1 {
		amb := vfC17Ambiguous(r1[l]) || vfC17Ambiguous(r2[l])
		if !amb && r1[l] != r2[l] {
			differing = true
		}
		if sel[l] && !amb && vfC17Standard(r1[l]) && vfC17Standard(r2[l]) {
			usable += w[l]
		}
	}
	return
}

// mode: 0 = every alignment in which no pair reaches the optimiser (the region of the known
// finding is excluded when it is listed); 1 = only the region of the finding; 2 = only alignments
// without any unambiguous difference.
func vfC17Skeleton(n, L int, mode int) {
	al, rows := vfC17Align(n, L, vfC17Letters)
	removegaps := nondetBool()
	passed, w := vfC17Weights(L)
	m := vfC17Model(removegaps)
	_, sel := selectedSites(al, w, removegaps)
	// Precondition of the harness (not an oracle): no pair may reach the optimiser, which needs
	// the eigen-decomposition. A pair reaches it iff it has an unambiguous difference and a
	// positive usable weight.
	anyRegion := false
	for i := 0; i < n; i++ {
		for j := i + 1; j < n; j++ {
			differing, usable := vfC17PairState(rows[i], rows[j], sel, w)
			assume(!(differing && usable > 0))
			if differing {
				anyRegion = true
			}
		}
	}
	switch {
	case mode == 1:
		assume(anyRegion)
	case mode == 2 || verifKnown("C17-mldist-minus-one"):
		assume(!anyRegion)
	}
	p, _, dist, err := m.MLDist(al, passed)
	verifAssert(err == nil, "amino-acid alignment: no error")
	verifAssert(p != nil && dist != nil, "matrices returned")
	dr, dc := dist.Dims()
	verifAssert(dr == n && dc == n, "n x n matrix")
	for i := 0; i < n; i++ {
		verifAssert(dist.At(i, i) == 0, "zero diagonal")
		for j := i + 1; j < n; j++ {
			differing, _ := vfC17PairState(rows[i], rows[j], sel, w)
			verifAssert(dist.At(i, j) == dist.At(j, i), "symmetric")
			verifAssert(differing || dist.At(i, j) == 0, "pair without unambiguous difference is at 0")
			verifAssert(dist.At(i, j) >= 0 && dist.At(i, j) <= PROT_DIST_MAX, "distance in [0,20]")
			if !differing {
				verifReach("pair without difference")
			}
		}
	}
}

// H_C17_mldist_skeleton: MLDist on alignments where no pair reaches the optimiser: n x n, symmetric, zero diagonal, every entry in [0,20], pairs without an unambiguous difference at 0.
// bounds: n <= 3 rows, L <= 2 sites (n=3 with L=1 and n=2 with L<=2 in the quick tier); residues symbolic in {A,R,N,-,X,*,B}; gap-site removal symbolic; weights nil or symbolic dyadic k/2, k=0..4; restricted to alignments in which every pair either has no unambiguous difference or has no usable site (zero weight, unselected, or a residue outside the 20 states)
// outside: every pair handed to the likelihood optimiser (needs Eigen.Factorize and Brent: not applicable); IEEE rounding is outside the claim: floats are exact reals
func H_C17_mldist_skeleton() {
	switch nondetRange(0, 2) {
	case 0:
		vfC17Skeleton(2, 1, 0)
	case 1:
		vfC17Skeleton(2, 2, 0)
	default:
		vfC17Skeleton(3, 1, 0)
	}
}

// H_C17_mldist_nodiff: MLDist on alignments without any unambiguous difference: the zero matrix (n x n, symmetric, zero diagonal).
// bounds: n = 2 with L <= 2, n = 3 with L = 1; residues symbolic in {A,R,N,-,X,*,B}; gap-site removal symbolic; weights nil or symbolic dyadic k/2, k=0..4; every pair agrees at every site where both residues are unambiguous
// outside: pairs with a difference (optimiser: not applicable; without usable site: H_C17_mldist_skeleton); IEEE rounding is outside the claim: floats are exact reals
func H_C17_mldist_nodiff() {
	switch nondetRange(0, 2) {
	case 0:
		vfC17Skeleton(2, 1, 2)
	case 1:
		vfC17Skeleton(2, 2, 2)
	default:
		vfC17Skeleton(3, 1, 2)
	}
}

// H_C17_mldist_skeleton_deep: as H_C17_mldist_skeleton on 3 rows of 2 sites.
// bounds: n = 3, L = 2
// outside: IEEE rounding is outside the claim: floats are exact reals
//verif: tier=thorough
func H_C17_mldist_skeleton_deep() {
	vfC17Skeleton(3, 2, 0)
}

// K_C17_mldist_minus_one: demonstrates the known finding C17-mldist-minus-one: a pair with an unambiguous difference but no usable site (e.g. B vs A, or the differing site has weight 0 / is removed as gapped) is reported at -1, outside [0,20].
// bounds: n = 2, L = 1
// outside: IEEE rounding is outside the claim: floats are exact reals
//verif: known=C17-mldist-minus-one expect=violation
func K_C17_mldist_minus_one() {
	vfC17Skeleton(2, 1, 1)
}

// vfC17FreqRef: the empirical frequencies as FastME defines them (the routine is a port): every
// selected site of every row adds its weight to its amino acid, or spreads it evenly over the 20
// states when the symbol is not one of them; if some count is below 1/20 one pseudo-count is
// added to every state; the counts are normalised.
func vfC17FreqRef(rows [][]uint8, w []float64, sel []bool) []float64 {
	num := make([]float64, 20)
	ns := float64(len(num)) // (not the literal 1.0/20: a folded constant is the nearest double, the engine's arithmetic is exact)
	letters := []uint8{'A', 'R', 'N', 'D', 'C', 'Q', 'E', 'G', 'H', 'I', 'L', 'K', 'M', 'F', 'P', 'S', 'T', 'W', 'Y', 'V'}
	for _, row := range rows {
		for j, c := range row {
			if !sel[j] {
				continue
			}
			idx := -1
			for k, l := range letters {
				if c == l {
					idx = k
				}
			}
			if idx >= 0 {
				num[idx] += w[j]
			} else {
				for k := range num {
					num[k] += w[j] / ns
				}
			}
		}
	}
	low := false
	for _, v := range num {
		low = low || v < 1/ns
	}
	sum := 0.0
	for k := range num {
		if low {
			num[k]++
		}
		sum += num[k]
	}
	for k := range num {
		num[k] /= sum
	}
	return num
}

// H_C17_aafreq: the empirical amino-acid frequencies (input of the model when frequencies are estimated from the data) count every selected residue whatever its position: they equal the FastME definition, so they do not depend on the order of rows or columns.
// bounds: (n,L) in {(1,1),(1,2),(2,1),(2,2),(1,3)}; every residue one of A, R, '-', X (enumerated: the counts are then linear in the weights); every site selected; weights nil or symbolic dyadic k/2, k=0..4
// outside: larger alignments; the use of the frequencies by the optimiser (not applicable)
func H_C17_aafreq() {
	shapes := [5][2]int{{1, 1}, {1, 2}, {2, 1}, {2, 2}, {1, 3}}
	sh := shapes[nondetRange(0, 4)]
	n, L := sh[0], sh[1]
	letters := []uint8{'A', 'R', '-', 'X'}
	al := align.NewAlign(align.AMINOACIDS)
	rows := make([][]uint8, n)
	for r := 0; r < n; r++ {
		rows[r] = make([]uint8, L)
		for j := range rows[r] {
			rows[r][j] = letters[nondetRange(0, 3)]
		}
		if err := al.AddSequenceChar(vfC17Names[r], append([]uint8{}, rows[r]...), ""); err != nil {
			panic("harness: cannot build alignment: " + err.Error())
		}
	}
	_, w := vfC17Weights(L)
	sel := make([]bool, L)
	for j := range sel {
		sel[j] = true
	}
	got, err := aaFrequency(al, w, sel)
	verifAssert(err == nil && len(got) == 20, "20 frequencies, no error")
	verifReach("frequencies")
	want := vfC17FreqRef(rows, w, sel)
	for _, k := range []int{0, 1, 2} { // A, R and one state absent from the rows: the other 17 are like it
		verifAssert(vfC17Close(got[k], want[k]), "frequency = normalised weighted count (ambiguous symbols spread evenly), independent of the position of gaps")
	}
}
